# C05: iterators and circulators enumerate exactly the live / incident entities.
# Shard parameters (harness/C05_iter.cpp, harness/C05_circ.cpp):
#   0 base mesh, 1 kind of the deferred-deleted entities (0 none, 1 V, 2 E, 3 F, 4 C), 2 first case index of the query,
#   3 iter: deletion-set mode (0 all pairs a<=b, 1 singles, 2 singles + (0,1),(n-2,n-1),(0,n-1)); circ: centre-group mask (1 V, 2 HE, 32 E, 4 HF, 16 F, 8 C; 0 all),
#   4 circ: 1 = skip the real range-for loops, 5 cases per query (the symbolic selector ranges over them).
_C05_MINI = 20
_C05_COUNTS = dict(BASE_COUNTS); _C05_COUNTS[_C05_MINI] = (2, 1, 0, 0)
_C05_COUNTS[B_TET3_RING] = (5, 10, 9, 3); _C05_COUNTS[B_PRISM_PYR] = (7, 13, 9, 2)   # specs.BASE_COUNTS has 9 resp. 12 edges for these two (measured: 10, 13)

def _c05_ncases(base, kind, mode):
    if kind == 0: return 1
    n = _C05_COUNTS[base][kind - 1]
    if mode == 0: return n * (n + 1) // 2
    if mode == 1: return n
    return n + (3 if n >= 2 else 0)

def _c05_iter_shards(plan, per=8):
    """plan: list of (base, kind, mode[, per])"""
    out = []
    for p in plan:
        base, kind, mode = p[0], p[1], p[2]
        pp = p[3] if len(p) > 3 else per
        n = _c05_ncases(base, kind, mode)
        for st in range(0, n, pp):
            out.append({0: base, 1: kind, 2: st, 3: mode, 5: min(pp, n - st)})
    return out

def _c05_circ_shards(plan):
    """plan: list of (base, kind, [entity indices], per, [group masks])"""
    out = []
    for base, kind, idxs, per, groups in plan:
        runs = []
        for i in idxs:   # consecutive runs of at most `per` indices share a query
            if runs and runs[-1][-1] + 1 == i and len(runs[-1]) < per: runs[-1].append(i)
            else: runs.append([i])
        for r in runs:
            for g in groups:
                out.append({0: base, 1: kind, 2: r[0], 3: g, 5: len(r)})
    return out

def _c05_all(base, kind): return list(range(_C05_COUNTS[base][kind - 1])) if kind else [0]

_c05_iter_quick = _c05_iter_shards([
    (B_EMPTY, 0, 0), (_C05_MINI, 0, 0), (_C05_MINI, 1, 0), (_C05_MINI, 2, 0),
    (B_LOWDIM, 0, 0), (B_LOWDIM, 1, 2, 4), (B_LOWDIM, 2, 2, 4), (B_LOWDIM, 3, 0),
    (B_TET, 0, 0), (B_TET, 1, 1, 2), (B_TET, 2, 1, 2), (B_TET, 3, 2, 3), (B_TET, 4, 0),
    (B_TET2_FACE, 0, 0), (B_TET2_FACE, 4, 0, 2)]) + [{0: B_TET2_FACE, 1: 1, 2: 0, 3: 1, 5: 1}, {0: B_TET2_FACE, 1: 1, 2: 4, 3: 1, 5: 1}]
_c05_iter_thorough = _c05_iter_shards(
    [(B_EMPTY, 0, 0), (_C05_MINI, 0, 0), (_C05_MINI, 1, 0), (_C05_MINI, 2, 0)] +
    [(b, k, 0, 4 if b != B_TET2_FACE else 3) for b in (B_LOWDIM, B_TET, B_TET2_FACE) for k in range(5) if k == 0 or _C05_COUNTS[b][k - 1]] +
    [(b, k, 2, 2) for b in (B_TET3_RING, B_HEX, B_PRISM_PYR) for k in range(5)])

_G4 = [1, 2 | 32, 4 | 16, 8]   # one query per centre dimension
_G6 = [1, 2, 32, 4, 16, 8]     # one query per centre kind
_G2 = [1 | 2 | 32, 4 | 16 | 8]  # two queries per state
_c05_circ_quick = _c05_circ_shards(
    [(B_LOWDIM, 0, [0], 1, [0])] + [(B_LOWDIM, k, _c05_all(B_LOWDIM, k), 2, [0]) for k in (1, 2, 3)] +
    [(B_TET, 0, [0], 1, _G2), (B_TET, 1, [0, 3], 1, _G2), (B_TET, 2, [0, 5], 1, _G2), (B_TET, 3, [0], 1, _G2), (B_TET, 4, [0], 1, _G2)] +
    [(B_TET2_FACE, 0, [0], 1, _G6), (B_TET2_FACE, 4, [1], 1, _G6), (B_TET2_FACE, 1, [4], 1, _G6)])
_c05_circ_thorough = _c05_circ_shards(
    [(B_LOWDIM, 0, [0], 1, [0]), (B_TET, 0, [0], 1, _G2)] +
    [(B_LOWDIM, k, _c05_all(B_LOWDIM, k), 2, [0]) for k in (1, 2, 3)] +
    [(B_TET, k, _c05_all(B_TET, k), 1, _G2) for k in (1, 2, 3, 4)] +
    [(B_TET2_FACE, 0, [0], 1, _G4), (B_TET2_FACE, 1, [0, 1, 2, 3, 4], 1, _G4), (B_TET2_FACE, 2, [0, 3, 8], 1, _G4),
     (B_TET2_FACE, 3, [0, 3, 6], 1, _G4), (B_TET2_FACE, 4, [0, 1], 1, _G4)] +
    [(B_TET3_RING, 0, [0], 1, _G4), (B_TET3_RING, 1, [0, 4], 1, _G4), (B_TET3_RING, 2, [0, 9], 1, _G4),
     (B_TET3_RING, 3, [0, 8], 1, _G4), (B_TET3_RING, 4, [0], 1, _G4)])
_c05_circ_big = _c05_circ_shards(
    [(b, 0, [0], 1, _G4) for b in (B_HEX, B_PRISM_PYR)] + [(B_TWOFACE, 0, [0], 1, [8, 1])] +   # TWOFACE: a cell sharing two faces with one neighbour (cell- and vertex-centred groups)
    [(B_HEX, 1, [0, 7], 1, _G4), (B_HEX, 2, [0, 11], 1, _G4), (B_HEX, 3, [0, 5], 1, _G4),
     (B_PRISM_PYR, 1, [6], 1, _G4), (B_PRISM_PYR, 3, [3], 1, _G4), (B_PRISM_PYR, 4, [0, 1], 1, _G4)])

_C05_CIRC_BOUNDS = ("each query: the listed base mesh in deferred-deletion mode + at most ONE deleted entity (with its upward closure) chosen by a symbolic selector "
                    "over the entities of the shard (param 2 .. 2+param 5-1 of kind param 1); every live centre of every one of the 26 circulators is enumerated; "
                    "max_laps symbolic in {1,2,3}; every step count 0 .. 3*len is checked (forward at every position; back-and-forth at every position of lap 1 and at "
                    "the first/last position of laps 2,3; a full backward walk from the last position); reference sequence by brute force from the stored definitions "
                    "(ordered for hfhe/hfv/fv/fhe, multiset otherwise)")

PROPS["C05"] = dict(
  jobs=[
    dict(name="c05-iter", harness="C05_iter.cpp", entries=["harness_c05_iter"], units=CORE, unwind=30, checks="none", object_bits=13,
         shards={"quick": _c05_iter_quick, "thorough": _c05_iter_thorough}, timeout={"quick": 600, "thorough": 1200}, mem_gb=3.5,
         bounds="entity iterators V/E/HE/F/HF/C on bases EMPTY, MINI(2V+1E), LOWDIM, TET, TET2_FACE (thorough: + TET3_RING, HEX, PRISM_PYR) in deferred mode with 0..2 "
                "deleted entities of one kind plus their upward closure (quick: MINI and TET2_FACE cells: all subsets of size <= 2; LOWDIM V,E and TET F: singles + (0,1),(n-2,n-1),(0,n-1); TET V,E singles; TET2_FACE V0,V4; thorough: all pairs on LOWDIM/TET/TET2_FACE, singles + 3 pairs on the others); the deleted set "
                "is chosen by a symbolic selector (<= 8 per query); start handle of the iterator constructor symbolic in [0,n]; walks are complete (all positions)"),
    dict(name="c05-circ", harness="C05_circ.cpp", entries=["harness_c05_circ"], units=CORE, unwind=40, checks="none", object_bits=13,
         shards={"quick": _c05_circ_quick, "thorough": _c05_circ_thorough}, timeout={"quick": 600, "thorough": 1200}, mem_gb=3.5,
         bounds=_C05_CIRC_BOUNDS + "; bases LOWDIM (all single deletions), TET (quick: none,V0,V3,E0,E5,F0,C0; thorough: all), TET2_FACE (quick: none, C1, V4; "
                "thorough: none, all V, E0/3/8, F0/3/6, both C), thorough also TET3_RING (none, V0/4, E0/9, F0/8, C0); incident lists up to 12 elements"),
    dict(name="c05-circ-big", harness="C05_circ.cpp", entries=["harness_c05_circ"], units=CORE, unwind=80, checks="none", object_bits=14, tiers=["thorough"],
         shards={"thorough": _c05_circ_big}, timeout=1500, mem_gb=4,
         bounds=_C05_CIRC_BOUNDS + "; bases HEX and PRISM_PYR (none + first/last vertex, edge, face resp. one vertex, the shared quad, each cell); incident lists up to 24 elements"),
    dict(name="c05-steps", harness="C05_circ.cpp", entries=["harness_c05_steps"], units=CORE, unwind=40, checks="none", object_bits=13,
         shards={"quick": _c05_circ_shards([(B_LOWDIM, 0, [0], 1, [0]), (B_TET, 0, [0], 1, _G4)]),
                 "thorough": _c05_circ_shards([(B_LOWDIM, 0, [0], 1, [0]), (B_LOWDIM, 1, [0], 1, [0]), (B_LOWDIM, 2, [0], 1, [0]), (B_TET, 0, [0], 1, _G4), (B_TET, 1, [0], 1, _G4),
                                               (B_TET, 2, [0], 1, _G4), (B_TET, 3, [0], 1, _G4), (B_TET2_FACE, 0, [0], 1, _G6), (B_TET2_FACE, 4, [1], 1, _G6), (B_TET3_RING, 0, [0], 1, _G6)])},
         timeout={"quick": 600, "thorough": 1500}, mem_gb=3.5,
         bounds="symbolic step counts: for every live centre (enumerated) of every one of the 26 circulators, max_laps symbolic in {1,2,3}, k forward steps symbolic in "
                "0..max_laps*len followed by b backward steps symbolic in 0..k (b = 0 at the end position): valid(), *it, lap() at position k and at position k-b, end == begin "
                "advanced max_laps*len times; bases LOWDIM and TET without deletion (thorough: + V0/E0/F0 deleted, TET2_FACE none and C1 deleted, TET3_RING none)"),
    dict(name="c05-disabled", harness="C05_circ.cpp", entries=["harness_c05_disabled"], units=CORE, unwind=40, checks="none", object_bits=13,
         shards={"quick": [{0: B_TET}], "thorough": [{0: B_LOWDIM}, {0: B_TET}, {0: B_TET2_FACE}]}, timeout={"quick": 600, "thorough": 1200}, mem_gb=3.5,
         bounds="bases TET (thorough: LOWDIM, TET, TET2_FACE), no deletions; symbolic selector over the 7 non-empty subsets of disabled bottom-up kinds; every centre enumerated; "
                "only the validity of the freshly constructed circulator is checked"),
  ],
  assumptions=["step counts and centres are enumerated by the symbolic executor (constant-folded), not sampled; the solver quantifies over the deletion selector, max_laps and the iterator start handle",
               "hfe/fe/chf/cf/che and all bottom-up circulators are compared as multisets (the API does not define their order)",
               "deleted (deferred) centres, centres with an invalid handle, faces without halfedges and cells without halffaces are outside the claim (property quantifier: centre entity with at least one sub-entity)",
               "tetrahedral/hexahedral-mesh circulators (tv, hv, csc, hfshf) and the boundary item iterators are not part of this check",
               "halfface used by two live cells: outside the precondition (as C01)"],
)
