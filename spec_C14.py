C14_UNITS = CORE + ["FileManager/TypeNames.cc"]   # typeName<T>() is referenced by PropertyStorageT's vtable (native link)
PROPS["C14"] = dict(jobs=[])
