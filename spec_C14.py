# C14: property registry.  Histories of K+1 operations: K prefix operations fixed per shard (v_param 0..2), the last operation chosen by a
# symbolic selector over a chunk (v_param 3) of the full alphabet of harness/c14_ops.h (110 operations, 8 per query).
C14_UNITS = CORE + ["FileManager/TypeNames.cc"]   # typeName<T>() is referenced by PropertyStorageT's vtable (native replay link)
(_K_REQUEST, _K_CREATE_SHARED, _K_CREATE_PERSISTENT, _K_CREATE_PRIVATE, _K_GET, _K_EXISTS, _K_SET_SHARED, _K_SET_PERSISTENT, _K_SET_NAME, _K_HCOPY, _K_HDROP,
 _K_CLEAR_PROPS_V, _K_CLEAR_PROPS_C, _K_CLEAR_ALL, _K_CLEAR, _K_MESH_COPY, _K_MESH_ASSIGN, _K_MESH_DESTROY) = range(18)
def _opc(kind, a=0, b=0): return kind * 64 + a * 8 + b
_IV, _IC, _BV, _BC = 0, 1, 2, 3          # families: int/bool x Vertex/Cell
_ANON, _A, _B = 0, 1, 2                  # names "", "a", "b"
C14_CHUNKS_MAIN = list(range(11))        # alphabet blocks 0..87 (chunk 11 is padding)
C14_CHUNKS_INV = [12, 13]                # create_shared/create_persistent with the empty name, set_name: the operations that can break the invariant
def _c14_shards(histories, chunks, base=0):
    out = []
    for h in histories:
        for c in chunks:
            s = {0: len(h), 3: c, 4: base}
            if len(h) >= 1: s[1] = h[0]
            if len(h) >= 2: s[2] = h[1]
            out.append(s)
    return out
# first operations: one per registry state of a storage (shared / persistent / private named / private anonymous), several families
_P_SHARED = _opc(_K_REQUEST, _IV, _A); _P_PERS = _opc(_K_CREATE_PERSISTENT, _IV, _A); _P_PRIV = _opc(_K_CREATE_PRIVATE, _IV, _A); _P_ANON = _opc(_K_REQUEST, _IV, _ANON)
_C14_FIRST_QUICK = [[_P_SHARED], [_P_PERS], [_P_PRIV]]
_C14_FIRST_THOROUGH = _C14_FIRST_QUICK + [[_opc(_K_CREATE_PERSISTENT, _BC, _B)], [_P_ANON], [_opc(_K_REQUEST, _BV, _A)], [_opc(_K_CREATE_SHARED, _IC, _B)], [_opc(_K_CREATE_PRIVATE, _BC, _ANON)],
                                           [_opc(_K_CREATE_PERSISTENT, _BV, _B)], [_opc(_K_CREATE_SHARED, _BV, _A)]]
_C14_SECOND = [_opc(_K_HCOPY, 0), _opc(_K_HDROP, 0), _opc(_K_SET_SHARED, 0, 0), _opc(_K_SET_PERSISTENT, 0, 1), _opc(_K_CLEAR_ALL), _opc(_K_MESH_COPY),
               _opc(_K_MESH_DESTROY), _opc(_K_REQUEST, _IV, _B), _opc(_K_CREATE_PRIVATE, _IV, _A), _opc(_K_GET, _IV, _A)]
_C14_PAIRS_THOROUGH = [[f, s] for f in (_P_SHARED, _P_PERS, _P_PRIV) for s in _C14_SECOND if not (f == _P_PERS and s == _opc(_K_HDROP, 0))]
_C14_BOUNDS = ("registry histories of K+1 operations on a mesh with 3 vertices and 0 cells (base 1: one tetrahedron, 4 vertices / 1 cell); the LAST operation is every one of the 110 "
               "operations of c14_ops.h ({request, create_shared, create_persistent, create_private, get_property, property_exists} x {int,bool} x {Vertex,Cell} x {'', 'a', 'b'}; "
               "set_shared / set_persistent (on/off), set_name (3 names), handle copy, handle drop on the handle of step 0 or 1; clear_props<Vertex>, clear_props<Cell>, clear_all_props, "
               "clear(), mesh copy construction, mesh assignment, mesh destruction before the handles are dropped), selector-dispatched 8 per query; default values, written values "
               "and the written/probed indices are free symbolic; the comparison with the reference registry runs after the last operation (every prefix is the last "
               "step of a shorter history); ")
PROPS["C14"] = dict(
  jobs=[
    dict(name="c14-k0", harness="C14_registry.cpp", entries=["harness_c14"], units=C14_UNITS, unwind=16, eh=True, checks="mem", object_bits=13, witness_any=True,
         shards=_c14_shards([[]], [c for c in C14_CHUNKS_MAIN if c != 8] + [12]), timeout=300, mem_gb=3.5,   # chunk 8 (set_shared/set_persistent) needs a handle: not applicable at K=0
         bounds=_C14_BOUNDS + "K=0: single operations on the empty registry (chunk 12: create_shared/create_persistent with the empty name)"),
    dict(name="c14-k1", harness="C14_registry.cpp", entries=["harness_c14"], units=C14_UNITS, unwind=16, eh=True, checks="mem", object_bits=13, witness_any=True,
         shards={"quick": _c14_shards(_C14_FIRST_QUICK[:2], C14_CHUNKS_MAIN) + _c14_shards([[_P_SHARED]], [13]),   # the private-first family is in the thorough tier (quick budget)
                 "thorough": _c14_shards(_C14_FIRST_THOROUGH, C14_CHUNKS_MAIN + C14_CHUNKS_INV)},
         timeout={"quick": 300, "thorough": 600}, mem_gb=3.5,
         bounds=_C14_BOUNDS + "K=1: first operation in {request int/Vertex 'a' (shared), create_persistent int/Vertex 'a', create_private int/Vertex 'a'} "
                "(thorough: + create_persistent bool/Cell 'b', request int/Vertex '' (anonymous), request bool/Vertex 'a', create_shared int/Cell 'b', create_private bool/Cell '', create_persistent bool/Vertex 'b', "
                "create_shared bool/Vertex 'a'); quick runs the invariant-breaking chunk (set_name) after the shared first operation only"),
    dict(name="c14-k2", harness="C14_registry.cpp", entries=["harness_c14"], units=C14_UNITS, unwind=16, eh=True, checks="mem", object_bits=13, witness_any=True,
         # after (.., handle drop of slot 0) no handle is left for chunk 8 (set_shared/set_persistent): not applicable, left out
         shards={"quick": _c14_shards([[_P_PERS, _opc(_K_HDROP, 0)]], [1, 2, 3, 5, 7, 9, 10]) + _c14_shards([[_P_SHARED, _opc(_K_REQUEST, _IV, _B)]], [13]),
                 "thorough": _c14_shards([[_P_PERS, _opc(_K_HDROP, 0)]], [c for c in C14_CHUNKS_MAIN if c != 8] + [12])
                             + _c14_shards([h for h in _C14_PAIRS_THOROUGH if h[1] != _opc(_K_HDROP, 0)], C14_CHUNKS_MAIN)
                             + _c14_shards([h for h in _C14_PAIRS_THOROUGH if h[1] == _opc(_K_HDROP, 0)], [c for c in C14_CHUNKS_MAIN if c != 8])
                             + _c14_shards([[_P_SHARED, _opc(_K_REQUEST, _IV, _B)]], C14_CHUNKS_INV)},
         timeout={"quick": 300, "thorough": 600}, mem_gb=3.5,
         bounds=_C14_BOUNDS + "K=2: quick: (create_persistent int/Vertex 'a', drop its handle) = the unreferenced persistent property (chunks 1,2,3,5,7,9,10 of the alphabet; the others timed out at 300 s on the loaded machine and run in thorough), and (request 'a', request 'b') + set_name (two shared properties: name collision); thorough: first in {request 'a', create_persistent 'a', "
                "create_private 'a'} (int/Vertex) x second in {handle copy, handle drop, set_shared off, set_persistent on, clear_all_props, mesh copy, mesh destruction, request 'b', "
                "create_private 'a', get_property 'a'}"),
    dict(name="c14-tet", harness="C14_registry.cpp", entries=["harness_c14"], units=C14_UNITS, unwind=26, eh=True, checks="mem", object_bits=13, witness_any=True, tiers=["thorough"],
         shards=_c14_shards([[_opc(_K_CREATE_PERSISTENT, _IC, _A)], [_opc(_K_REQUEST, _BC, _B)]], C14_CHUNKS_MAIN, base=1), timeout=900, mem_gb=8,
         bounds=_C14_BOUNDS + "K=1 on the one-tetrahedron base (cell properties have one element: contents and identity of cell properties are observable)"),
  ],
  assumptions=[
    "heap address order = allocation order: std::less<T*> (std::set<PropertyStorageBase*> in detail::Tracker, std::set<shared_ptr<..>> of persistent properties) compares two distinct heap objects by their allocation sequence (rt.c v_plt); real allocators may order them differently (iteration order of the registry is not observable through the checked API except for which of two equally named shared properties is found, which is outside the invariant)",
    "std::make_shared's control block is typed as {refcounts, T} (ll2c typed storage override) instead of libstdc++'s byte buffer; std::string's SSO buffer as 16 bytes",
    "__libc_single_threaded = 1 (shared_ptr reference counts take libstdc++'s non-atomic path; atomics are lowered to plain accesses anyway)",
    "allocation failure is out of scope; exception messages are not modelled (std::runtime_error::what() is empty)",
    "native replays suppress UBSan's vptr report for detail::Tracked<PropertyStorageBase>'s static_cast<T*>(this) in its constructor/destructor (harness/c14_native.h, notes/C14-findings.md O1)",
    "outside the bound: histories longer than 3 operations, more than one handle-referencing operand besides the handles of steps 0/1, names other than '', 'a', 'b', value types other than int/bool, entity kinds other than Vertex/Cell, handle moves (std::move of a PropertyPtr), operations on the copy mesh other than lookups",
  ],
)
