_c17_common = dict(harness="C17_swaps.cpp", entries=["harness_c17"], units=CORE, unwind=26, object_bits=13, witness_any=True, timeout={"quick": 900, "thorough": 2400}, mem_gb=3)
_SWAPS = [OP_SWAP_V, OP_SWAP_E, OP_SWAP_F, OP_SWAP_C]
PROPS["C17"] = dict(
  jobs=[
    dict(name="c17", checks="none", **_c17_common,
         shards={"quick": op_shards([B_TET], [1], _SWAPS) + op_shards([B_LOWDIM], [1], [OP_SWAP_V, OP_SWAP_E])
                        + _with([op_shards([B_TET], [1], [k])[0] for k in _SWAPS], {4: OP_DEL_E, 5: 1}),
                 "thorough": _with(op_shards([B_TET], [1], _SWAPS), {4: OP_DEL_E, 5: 1}) + op_shards([B_TET2_FACE, B_TRI2, B_TET3_RING], [1], _SWAPS) + _with(op_shards([B_TET2_FACE], [1], _SWAPS), {4: OP_DEL_C, 5: 0})
                        + _with(op_shards([B_TET], [1], _SWAPS), {4: OP_DEL_V, 5: 3}) + op_shards([B_HEX], [1], [OP_SWAP_V, OP_SWAP_F])},
         bounds="every ordered pair (h1,h2) of vertex/edge/face/cell handles of the base (incl. equal, adjacent, sharing a face/cell, deleted-but-not-collected after a deferred deletion), symbolic selector 8 pairs per query; "
                "relabeling oracle at symbolic probe indices; C01 cache oracle (level 0) after the swap; second swap restores the state incl. cache order; bases quick: tetrahedron, low-dimensional mesh"),
    dict(name="c17-nobu", checks="mem", ll2c_flags=["--null-guard"], **_c17_common,
         shards={"quick": _with(op_shards([B_TET], [1], [OP_SWAP_V]), {7: 9}) + _with(op_shards([B_TET], [1], [OP_SWAP_E]), {7: 10}) + _with(op_shards([B_TET], [1], [OP_SWAP_E]), {7: 9})
                        + _with(op_shards([B_TET], [1], [OP_SWAP_F]), {7: 12}) + _with(op_shards([B_TET], [1], [OP_SWAP_F]), {7: 10}) + _with(op_shards([B_TET], [1], [OP_SWAP_C]), {7: 12})
                        + _with(op_shards([B_TET], [1], [OP_SWAP_C, OP_SWAP_V]), {7: 15}),
                 "thorough": [d for sub in (15, 7, 9, 10, 12) for d in _with(op_shards([B_TET], [1], _SWAPS), {7: sub})]},
         bounds="same swaps with bottom-up incidence kinds disabled (before/after building the base), CBMC pointer and bounds checks on every access"),
  ],
  assumptions=["property values (int/bool) following the swap are decided in C03"],
)
