# C16 Hexahedral kernel: shape and halfface-order invariants, hex navigation (harness/C16_hex.cpp, harness/c16_hex.h)
HEXU = CORE + ["Mesh/HexahedralMeshTopologyKernel.cc", "Mesh/HexahedralMeshIterators.cc"]
_HB_HEX, _HB_HEX2, _HB_SHEET, _HB_HEX2_VERTS, _HB_HEX2_FAST = range(5)
_P_CONV, _P_ORI, _P_BND, _P_NAV, _P_HV, _P_SHEET = 1, 2, 4, 8, 16, 32
_P_CELL = _P_CONV | _P_ORI | _P_BND | _P_HV

def _c16_base_shards(base, n_hf, nav_chunk, sheet_chunk, merge_sheet):
    """shards of harness_c16_base: {0: base, 1: parts mask, 2: first reference halfface, 3: number of reference halffaces}"""
    out = []
    if merge_sheet:
        out.append({0: base, 1: _P_CELL | _P_SHEET, 2: 0, 3: 64})
    else:
        out.append({0: base, 1: _P_CELL, 2: 0, 3: 0})
        for lo in range(0, n_hf, sheet_chunk):
            out.append({0: base, 1: _P_SHEET, 2: lo, 3: sheet_chunk})
    for lo in range(0, n_hf, nav_chunk):
        out.append({0: base, 1: _P_NAV, 2: lo, 3: nav_chunk})
    return out

_C16_ORACLE = ("oracle per cell (enumerated): 2k/2k+1 share no vertex, first halfface's halfedges meet halffaces 2,4,3,5 cyclically, 8 distinct vertices, "
               "x/y/z front/back, get_oriented_halfface(o: all 256 values symbolic), orientation(hf: symbolic halfface)/opposite_halfface_handle_in_cell, "
               "orthogonal_orientation(o1,o2: symbolic in 0..5) against the walk around halfface o1, hex_vertices pattern")

PROPS["C16"] = dict(
  jobs=[
    # longest queries first (scheduling)
    dict(name="c16-perm-hex2", harness="C16_hex.cpp", entries=["harness_c16_perm"], units=HEXU, unwind=150, checks="none", object_bits=13,
         shards={"quick": [{0: 1, 1: 0, 2: 16 * r + t, 3: 1} for r in (0, 2, 4) for t in range(4)],
                 "thorough": [{0: 1, 1: 0, 2: ch, 3: 2} for ch in range(48)]},
         timeout={"quick": 400, "thorough": 1200}, mem_gb=5,
         bounds="second hexahedron of the two-hex base (first cell present, shared face pre-exists with the other halfface in use): add_cell(permuted list, true), first cell added without check from a list in convention order; quick (1 permutation per query, fixed by the shard): rotations 0,2,4 x "
                "{identity,(0 1),(0 2),(2 3)} (12 permutations), thorough: 6 rotations x 16 (identity + all 15 transpositions) = 96; same assertions as c16-perm-hex for the new cell"),
    # (4) add_cell(8 vertices)
    dict(name="c16-verts", harness="C16_hex.cpp", entries=["harness_c16_verts"], units=HEXU, unwind=150, checks="none", object_bits=13,
         shards={"quick": [{0: 1, 1: 1, 2: idx, 3: 1} for idx in (0, 5, 10, 15, 16, 21, 24, 25)],
                 "thorough": [{0: g, 1: 1, 2: ch, 3: 2} for g in range(6) for ch in range(13)] + [{0: 1, 1: 0, 2: ch, 3: 2} for ch in range(13)]},
         timeout={"quick": 400, "thorough": 1200}, mem_gb=4,
         bounds="add_cell(8 vertices): first hex on an empty 12-vertex mesh, second hex glued onto face g of the first such that the shared face is the second hex's local face L (XF..ZB) in "
                "rotation rot; symbolic selector over the (L,rot) cases of a query (thorough: 2 per query; quick: 1 per query, i.e. the selector is fixed by the shard); quick: g = XB, topologyCheck on, (L,rot) in {(0,0),(1,1),(2,2),(3,3),(4,0),(5,1)} + two cases where all six faces pre-exist (built by add_face); "
                "thorough: every g, L, rot with check on, g = XB with check off. Asserted: exactly 5 faces / 8 edges created, no duplicate faces or edges, shared face reused at position L, "
                + _C16_ORACLE + ", hex_vertices == documented pattern of the input up to a rotation about the first axis"),
    # (5) inherited operations
    dict(name="c16-ops", harness="C16_hex.cpp", entries=["harness_c16_ops"], units=HEXU, unwind=150, checks="none", object_bits=13,
         shards={"quick": [{0: 0, 1: ch, 2: 0, 3: 1} for ch in range(8)],
                 "thorough": [{0: md, 1: ch, 2: gc, 3: 2} for md in range(4) for gc in (0, 1) for ch in range(6)]},
         timeout={"quick": 400, "thorough": 1200}, mem_gb=4,
         bounds="two-hex base + ONE inherited operation (symbolic selector, 2 per query in thorough; quick: 1 per query, i.e. fixed by the shard) from {delete_cell 0/1, delete_face shared/bottom/side, swap_cell_indices(0,1), swap_face_indices(1,10)/(0,5), "
                "delete_edge(0), delete_vertex(0), swap_edge_indices(0,19), swap_vertex_indices(0,11)}; quick: first 8, immediate deletion; thorough: all 12 x 4 deletion modes x with/without collect_garbage. "
                "Asserted for the surviving entities: face valence 4, cell valence 6, " + _C16_ORACLE),
    # (2) permuted valid halfface lists
    dict(name="c16-perm-hex", harness="C16_hex.cpp", entries=["harness_c16_perm"], units=HEXU, unwind=150, checks="none", object_bits=13,
         shards={"quick": [{0: 0, 1: 0, 2: 8 * r + h, 3: 2} for r in range(6) for h in (0, 1)],
                 "thorough": [{0: 0, 1: 1, 2: ch, 3: 4} for ch in range(180)]},
         timeout={"quick": 400, "thorough": 1200}, mem_gb=4,
         bounds="add_cell(permutation of the six halffaces of one hexahedron on 8 vertices / 6 bare faces, topologyCheck=true); symbolic selector over the permutations of a query (2 per query in quick, 4 in thorough); "
                "quick: 24 permutations = 6 rotations of the B_HEX list x {identity, (0 1), (0 2), (2 3)}; thorough: all 720 permutations. Accepted => one cell appended holding exactly the "
                "given halffaces, rest of the mesh unchanged, and " + _C16_ORACLE + "; rejected => snapshot unchanged"),
    # (1) bases built by the hexahedral kernel; every oracle part
    dict(name="c16-base", harness="C16_hex.cpp", entries=["harness_c16_base"], units=HEXU, unwind=150, checks="none", object_bits=13,
         shards={"quick": _c16_base_shards(_HB_HEX, 12, 12, 12, True) + _c16_base_shards(_HB_HEX2, 22, 6, 22, False) + _c16_base_shards(_HB_HEX2_VERTS, 22, 6, 22, False),
                 "thorough": _c16_base_shards(_HB_HEX, 12, 12, 12, True) + _c16_base_shards(_HB_HEX2, 22, 11, 22, True) + _c16_base_shards(_HB_HEX2_VERTS, 22, 11, 22, True)},
         timeout={"quick": 400, "thorough": 1200}, mem_gb=3,
         bounds="bases: 1 hex and 2 hexes sharing a face built with add_cell(6 halffaces in NON-convention order, topologyCheck=true) (B_HEX/B_HEX2 layout), 2 hexes built with "
                "add_cell(8 vertices, true); concrete meshes, no history. " + _C16_ORACLE + "; is_boundary(hf/f: symbolic halfface; c enumerated); adjacent_halfface_on_sheet / "
                "adjacent_halfface_on_surface / neighboring_outside_halfface for EVERY (halfface, halfedge of it) enumerated (these copy containers: a symbolic probe gives no verdict); "
                "cell_sheet_cells(c,d) for every cell and direction 0..5 with a symbolic target cell; halfface_sheet_halffaces(hf) + common_edge() for every halfface with a symbolic target halfface"),
    dict(name="c16-sheet", harness="C16_hex.cpp", entries=["harness_c16_base"], units=HEXU, unwind=150, checks="none", object_bits=13, tiers=["thorough"],
         shards=_c16_base_shards(_HB_SHEET, 40, 5, 10, False), timeout=1200, mem_gb=8,
         bounds="2x2 sheet: four hexahedra around one interior edge (18 vertices, 33 edges, 20 faces) built with add_cell(8 vertices, true); same oracle parts as c16-base, sharded by "
                "reference halfface (navigation: 5 per query, halfface sheet circulator: 10 per query); shards without a verdict inside 1200 s are reported NOT-COVERED"),
    # (3) rejected constructions (memory-safety checks on)
    dict(name="c16-reject", harness="C16_hex.cpp", entries=["harness_c16_reject"], units=HEXU, unwind=150, checks="mem", object_bits=13,
         shards=[{0: 0}, {0: 1}, {0: 2}], timeout={"quick": 400, "thorough": 1200}, mem_gb=3,
         bounds="15 invalid constructions on one hexahedron's faces (symbolic selector, 5 per query): add_cell with 5 / 7 halffaces (check on and off), a triangle among the six, "
                "first / second / a side / two side halffaces flipped, duplicated halfface, add_face with 3 / 5 vertices, 3 / 5 halfedges, 4 unconnected halfedges with check, add_cell with 7 vertices; "
                "each must return an invalid handle and leave take_snapshot() unchanged; CBMC pointer/bounds checks on"),
    # (6) static orientation algebra
    dict(name="c16-orient", harness="C16_hex.cpp", entries=["harness_c16_orient_static"], units=HEXU, unwind=150, checks="none", object_bits=13,
         timeout=300, mem_gb=2,
         bounds="orthogonal_orientation(o1,o2) for all 65536 pairs of 8-bit arguments == cross product of the signed axes (INVALID for invalid / same-axis arguments); opposite_orientation for o < 6"),
  ],
  assumptions=[
    "meshes: one hexahedron, two hexahedra sharing a face, (thorough) a flat 2x2 sheet of four hexahedra around one interior edge; K <= 1 operation after construction; larger blocks, bending / closed sheets, longer histories are outside the bound",
    "navigation helpers and sheet circulators are checked for every enumerated centre (they copy / sort containers, symbolic centres give no verdict); compared targets and orientation constants are symbolic",
    "adjacent_halfface_on_sheet/on_surface/neighboring_outside_halfface have no documented contract beyond their names; the oracle is the brute-force reading: the halfface continuing hf across he on the cell across the side face (either side of hf), resp. a boundary halfface of another face around he",
    "passing invalid handles to add_cell is outside the precondition (not exercised)",
  ],
)
