_c02_common = dict(harness="C02_deletion.cpp", entries=["harness_c02"], units=CORE, unwind=26, checks="none", object_bits=13, witness_any=True,
                   timeout={"quick": 900, "thorough": 2400}, mem_gb=3)
_DELS = [OP_DEL_V, OP_DEL_E, OP_DEL_F, OP_DEL_C]
PROPS["C02"] = dict(
  jobs=[
    dict(name="c02-k1", **_c02_common,
         shards={"quick": op_shards([B_TET], [0, 1, 2, 3], _DELS) + op_shards([B_LOWDIM], [0, 1, 2], _DELS) + op_shards([B_TET2_FACE], [0], [OP_DEL_F])[:1],
                 "thorough": op_shards([B_TET2_FACE, B_TET2_EDGE, B_TET2_VERTEX, B_TET3_RING, B_PRISM_PYR, B_TRI2, B_HEX], [0, 1, 2, 3], _DELS)},
         bounds="one deletion of every live vertex/edge/face/cell (symbolic selector, 8 per query) in each of the four (deferred x fast) modes, all bottom-up incidences on; "
                "symbolic probe indices for the comparison with the reference closure/renumbering; bases quick: tetrahedron, low-dimensional mesh; thorough: 2 tets (face/edge/vertex), 3-tet ring, prism+pyramid, 2 triangles, hexahedron"),
    dict(name="c02-nobu", ll2c_flags=["--null-guard"], **_c02_common,
         shards={"quick": [d for sub in (15, 10, 12) for d in _with(op_shards([B_TET], [0], _DELS) + op_shards([B_TET], [3], [OP_DEL_E, OP_DEL_F]), {7: sub})] + _with(op_shards([B_LOWDIM], [0], _DELS), {7: 15})
                        + _with(op_shards([B_TET], [1], [OP_DEL_E, OP_DEL_V]), {4: OP_DEL_F, 5: 0, 7: 10}) + _with(op_shards([B_TET], [1], [OP_DEL_V]), {4: OP_DEL_E, 5: 2, 7: 9})
                        + _with(op_shards([B_TET2_FACE], [1], [OP_DEL_F])[:1], {7: 12}) + _with(op_shards([B_TET2_FACE], [1], [OP_DEL_C]), {7: 10}),
                 "thorough": [d for sub in (15, 10, 12) for d in _with(op_shards([B_TET], [3], [OP_DEL_V, OP_DEL_C]), {7: sub})] + _with(op_shards([B_LOWDIM], [3], _DELS), {7: 15}) + [d for sub in (7, 9, 11, 13, 14, 1, 2, 4) for d in _with(op_shards([B_TET], [0, 1, 3], _DELS), {7: sub})]
                           + [d for sub in (15, 10, 12) for d in _with(op_shards([B_TET2_FACE], [0, 3], _DELS), {7: sub})]},
         bounds="same with subsets of the bottom-up incidences disabled (before or after the base is built): the non-cached code paths of delete_*_core"),
    dict(name="c02-k2", **_c02_common,
         # C02 harness layout: the CHECKED operation is param 2 (selector over its arguments), the pre-operation is params 4/5 (fixed argument)
         shards={"quick": [d for (pre, idxs) in ((OP_DEL_V, (0, 3)), (OP_DEL_E, (1, 4)), (OP_DEL_F, (2,)), (OP_DEL_C, (0,))) for i in idxs for d in _with(op_shards([B_TET], [1, 3], [OP_GC]), {4: pre, 5: i})]
                        + [d for (pre, idxs) in ((OP_DEL_V, (2, 4)), (OP_DEL_E, (3, 4)), (OP_DEL_F, (0,))) for i in idxs for d in _with(op_shards([B_LOWDIM], [1, 3], [OP_GC]), {4: pre, 5: i})]
                        + _with(op_shards([B_TET], [1, 3], [OP_SET_MODE]), {4: OP_DEL_E, 5: 2}) + _with(op_shards([B_TET], [1], _DELS), {4: OP_DEL_F, 5: 1}),
                 "thorough": [d for b in (B_TET, B_LOWDIM, B_TET2_FACE) for (pre, n) in zip(_DELS, BASE_COUNTS[b]) for i in range(n) for d in _with(op_shards([b], [1, 3], [OP_GC]), {4: pre, 5: i})]
                        + [d for pre_idx in (0, 3) for pre in _DELS for d in _with(op_shards([B_TET], [0, 1, 3], _DELS), {4: pre, 5: pre_idx})]
                        + [d for pre_idx in (0, 1, 2, 3) for d in _with(op_shards([B_TET], [0, 1], _DELS), {4: OP_SET_MODE, 5: pre_idx})]
                        + _with(op_shards([B_TET], [0, 1, 3], _DELS), {4: OP_ADD_E_DUP, 5: 1}) + _with(op_shards([B_TET], [0, 1, 3], _DELS), {4: OP_ADD_V, 5: 0})},
         bounds="two-step histories: deletion -> collect_garbage (deferred modes), deletion -> switch of the deletion mode (collects garbage), deletion -> deletion, addition -> deletion"),
  ],
  assumptions=["documented renumbering is part of the oracle: immediate deletion shifts later handles down by one, fast deletion swaps the victim with the last entity first, deferred deletion only flags; "
               "entities are removed cells-first in descending handle order (as documented in delete_*_core / collect_garbage)",
               "the state before the checked operation is taken as found (inductive step); pre-operations are checked when they are the selected operation"],
)
